//! typesreplay: replay TLC-generated type graphs into the REAL type checker (properties C09/C08).
//!
//! stdin (ndjson), one case per line:
//!   {"id":.., "g": {"types":[node..], "tuples":[{"name","fs":[{"l","t"}]}]}, "roots":[ids],
//!    "narrow": [[i,j],..]}            i,j index `roots` (1-based, like every id here)
//! nodes (children always have smaller ids than their parents):
//!   {"k":"int"|"bin"|"ref"} {"k":"res","r":name} {"k":"cyc","n":depth} {"k":"tup","t":tuple}
//!   {"k":"par","name":"","fs":[{"l","t"}]} {"k":"uni","ms":[ids]} {"k":"fn","p","r","rc"}
//!   {"k":"proc","s","r"}
//! Each graph is built in a fresh `quiver_core::program::Program` through register_tuple /
//! register_type (which deduplicate structurally; NIL/OK tuples pre-exist at ids 0/1).
//!
//! stdout (ndjson): {"id","roots","map":[registry ids of roots],"fmt":[formatted types],
//!   "compat":[[bool]], "overlap":[[bool]]   is_compatible / types_overlap(roots[i], roots[j])
//!   "narrow":[{"i","j","g":graph',"a","b","inter":[id]|[],"compl":[id]|[],"src":..,"err":..}]}
//! `narrow`: quiver_compiler's intersect_types / compute_complement live in a private module,
//! so they are reached through compiled programs, with 'za / 'zb bound to the two registry ids:
//!   inter = the alias `'zi = 'za & 'zb`          (typing.rs folds `&` with intersect_types)
//!   compl = result type of `{ | ='zb => Zq | ~ }` compiled with flowing-value type 'za, minus
//!           the marker Zq: the type the compiler gives the value after the `='zb` test failed
//!           (compute_complement + apply_narrowing in compile_block).
//! graph' is the reachable part of the program's registry after the operation, renumbered.
//!
//! A second mode, `typesreplay probe`, reads {"id","aliases":{"za": graph-with-root,..},"src":..,
//! "param": alias} and prints the formatted result type (used while writing the engine).
use qharness::E;
use quiver_compiler::compiler::{Binding, ModuleCache, TypeAliasDef};
use quiver_compiler::{Compiler, PackageResolver};
use quiver_core::builtins::BuiltinRegistry;
use quiver_core::program::Program;
use quiver_core::types::{Type, TypeLookup, is_compatible, types_overlap};
use serde_json::{Value as J, json};
use std::collections::{BTreeMap, HashMap};
use std::io::{BufRead, Write};
use std::panic::{AssertUnwindSafe, catch_unwind};

fn opt_name(s: &str) -> Option<String> {
    if s.is_empty() { None } else { Some(s.to_string()) }
}

fn idx(j: &J) -> usize {
    j.as_u64().expect("id") as usize
}

/// Build the case graph; returns the registry id of every case node (index 0 unused).
fn build(g: &J, program: &mut Program) -> Result<Vec<usize>, String> {
    let types = g["types"].as_array().ok_or("types")?;
    let tuples = g["tuples"].as_array().ok_or("tuples")?;
    let mut map: Vec<usize> = vec![usize::MAX; types.len() + 1];
    for (pos, node) in types.iter().enumerate() {
        let n = pos + 1;
        let m = |j: &J, map: &Vec<usize>| -> Result<usize, String> {
            let c = idx(j);
            if c == 0 || c >= n || map[c] == usize::MAX {
                Err(format!("node {n}: child {c} is not an earlier node"))
            } else {
                Ok(map[c])
            }
        };
        let ty = match node["k"].as_str().unwrap_or("") {
            "int" => Type::Integer,
            "bin" => Type::Binary,
            "ref" => Type::Reference,
            "res" => Type::Resource(node["r"].as_str().unwrap_or("R").to_string()),
            "cyc" => Type::Cycle(idx(&node["n"])),
            "tup" => {
                let ti = &tuples[idx(&node["t"]) - 1];
                let mut fields = Vec::new();
                for f in ti["fs"].as_array().ok_or("fs")? {
                    fields.push((opt_name(f["l"].as_str().unwrap_or("")), m(&f["t"], &map)?));
                }
                let tid = program.register_tuple(opt_name(ti["name"].as_str().unwrap_or("")), fields);
                Type::Tuple(tid)
            }
            "par" => {
                let mut fields = Vec::new();
                for f in node["fs"].as_array().ok_or("fs")? {
                    fields.push((f["l"].as_str().unwrap_or("").to_string(), m(&f["t"], &map)?));
                }
                Type::Partial {
                    name: opt_name(node["name"].as_str().unwrap_or("")),
                    fields,
                }
            }
            "uni" => {
                let mut ms = Vec::new();
                for c in node["ms"].as_array().ok_or("ms")? {
                    ms.push(m(c, &map)?);
                }
                Type::Union(ms)
            }
            "fn" => Type::Callable {
                parameter: m(&node["p"], &map)?,
                result: m(&node["r"], &map)?,
                receive: m(&node["rc"], &map)?,
            },
            "proc" => Type::Process {
                send: Some(m(&node["s"], &map)?),
                receive: Some(m(&node["r"], &map)?),
            },
            k => return Err(format!("node {n}: unknown kind {k:?}")),
        };
        map[n] = program.register_type(ty);
    }
    Ok(map)
}

/// Export the part of the registry reachable from `want` as a case-style graph (1-based,
/// children first); returns (graph, new id of each wanted registry id).
fn export(program: &Program, want: &[usize]) -> (J, Vec<usize>) {
    fn kids(program: &Program, id: usize) -> Vec<usize> {
        match program.lookup_type(id) {
            Some(Type::Tuple(t)) => program
                .lookup_tuple(*t)
                .map(|i| i.fields.iter().map(|(_, f)| *f).collect())
                .unwrap_or_default(),
            Some(Type::Partial { fields, .. }) => fields.iter().map(|(_, f)| *f).collect(),
            Some(Type::Union(ms)) => ms.clone(),
            Some(Type::Callable {
                parameter,
                result,
                receive,
            }) => vec![*parameter, *result, *receive],
            Some(Type::Process { send, receive }) => {
                send.iter().chain(receive.iter()).copied().collect()
            }
            _ => vec![],
        }
    }
    fn visit(program: &Program, id: usize, order: &mut Vec<usize>, seen: &mut Vec<usize>) {
        if seen.contains(&id) {
            return;
        }
        seen.push(id);
        for c in kids(program, id) {
            visit(program, c, order, seen);
        }
        order.push(id);
    }
    let mut order = Vec::new();
    let mut seen = Vec::new();
    for &w in want {
        visit(program, w, &mut order, &mut seen);
    }
    let new: BTreeMap<usize, usize> = order.iter().enumerate().map(|(i, r)| (*r, i + 1)).collect();
    let mut types = Vec::new();
    let mut tuples = Vec::new();
    let mut tuple_new: BTreeMap<usize, usize> = BTreeMap::new();
    for &r in &order {
        let node = match program.lookup_type(r) {
            Some(Type::Integer) => json!({"k": "int"}),
            Some(Type::Binary) => json!({"k": "bin"}),
            Some(Type::Reference) => json!({"k": "ref"}),
            Some(Type::Resource(name)) => json!({"k": "res", "r": name}),
            Some(Type::Cycle(d)) => json!({"k": "cyc", "n": d}),
            Some(Type::Variable(_)) => json!({"k": "var"}),
            Some(Type::Tuple(t)) => {
                let ti = if let Some(x) = tuple_new.get(t) {
                    *x
                } else {
                    let info = program.lookup_tuple(*t).expect("tuple");
                    let fs: Vec<J> = info
                        .fields
                        .iter()
                        .map(|(l, f)| json!({"l": l.clone().unwrap_or_default(), "t": new[f]}))
                        .collect();
                    tuples.push(json!({"name": info.name.clone().unwrap_or_default(), "fs": fs}));
                    tuple_new.insert(*t, tuples.len());
                    tuples.len()
                };
                json!({"k": "tup", "t": ti})
            }
            Some(Type::Partial { name, fields }) => {
                let fs: Vec<J> = fields.iter().map(|(l, f)| json!({"l": l, "t": new[f]})).collect();
                json!({"k": "par", "name": name.clone().unwrap_or_default(), "fs": fs})
            }
            Some(Type::Union(ms)) => {
                json!({"k": "uni", "ms": ms.iter().map(|m| new[m]).collect::<Vec<_>>()})
            }
            Some(Type::Callable {
                parameter,
                result,
                receive,
            }) => json!({"k": "fn", "p": new[parameter], "r": new[result], "rc": new[receive]}),
            Some(Type::Process { send, receive }) => match (send, receive) {
                (Some(s), Some(r)) => json!({"k": "proc", "s": new[s], "r": new[r]}),
                _ => json!({"k": "var"}),
            },
            None => json!({"k": "var"}),
        };
        types.push(node);
    }
    (
        json!({"types": types, "tuples": tuples}),
        want.iter().map(|w| new[w]).collect(),
    )
}

struct Ctx {
    builtins: BuiltinRegistry<E>,
    resolver: PackageResolver,
}

fn alias(id: usize) -> Binding {
    Binding::TypeAlias(TypeAliasDef {
        parameters: vec![],
        type_id: id,
    })
}

/// Compile `src` against `program` with the given aliases and flowing-value type.
fn compile(
    ctx: &Ctx,
    program: &mut Program,
    aliases: &[(&str, usize)],
    param: usize,
    src: &str,
) -> Result<(usize, HashMap<String, Binding>), String> {
    let parsed = quiver_compiler::parse(src).map_err(|e| format!("parse: {e}"))?;
    let mut bindings = HashMap::new();
    for (n, id) in aliases {
        bindings.insert(n.to_string(), alias(*id));
    }
    let mut cache = ModuleCache::new();
    let none = HashMap::new();
    let r = Compiler::compile(
        parsed,
        &bindings,
        &mut cache,
        &ctx.resolver,
        program,
        param,
        &none,
        &ctx.builtins,
        None,
    )
    .map_err(|e| format!("compile: {:?}", e.error))?;
    Ok((r.result_type, r.bindings))
}

fn guarded<T>(f: impl FnOnce() -> Result<T, String>) -> Result<T, String> {
    match catch_unwind(AssertUnwindSafe(f)) {
        Ok(r) => r,
        Err(p) => {
            let m = if let Some(s) = p.downcast_ref::<&str>() {
                s.to_string()
            } else if let Some(s) = p.downcast_ref::<String>() {
                s.clone()
            } else {
                "panic".into()
            };
            Err(format!("panic: {m}"))
        }
    }
}

const COMPL_SRC: &str = "{ | ='zb => Zq | ~ }";
const INTER_SRC: &str = "'zi = 'za & 'zb";

fn narrow(ctx: &Ctx, base: &Program, a: usize, b: usize) -> J {
    let mut rec = json!({"src": {"inter": INTER_SRC, "compl": COMPL_SRC}});
    let mut errs = Vec::new();
    // intersection through the `&` type operator
    let mut p1 = base.clone();
    let inter = guarded(|| {
        let (_, b2) = compile(ctx, &mut p1, &[("za", a), ("zb", b)], 0, INTER_SRC)?;
        match b2.get("zi") {
            Some(Binding::TypeAlias(d)) => Ok(d.type_id),
            _ => Err("alias zi missing".to_string()),
        }
    });
    // complement through the type of the value in the branch after a failed `='zb`
    let mut p2 = base.clone();
    let compl = guarded(|| {
        let (res, _) = compile(ctx, &mut p2, &[("za", a), ("zb", b)], a, COMPL_SRC)?;
        // strip the marker tuple Zq from the result union
        let zq = p2
            .get_tuples()
            .iter()
            .position(|t| t.name.as_deref() == Some("Zq") && t.fields.is_empty());
        let is_zq = |p: &Program, id: usize| match (p.lookup_type(id), zq) {
            (Some(Type::Tuple(t)), Some(z)) => *t == z,
            _ => false,
        };
        let members: Vec<usize> = match p2.lookup_type(res) {
            Some(Type::Union(ms)) => ms.clone(),
            _ => vec![res],
        };
        let rest: Vec<usize> = members.into_iter().filter(|m| !is_zq(&p2, *m)).collect();
        Ok(match rest.len() {
            1 => rest[0],
            _ => p2.register_type(Type::Union(rest)),
        })
    });
    // one export per operation, each with its own a/b numbering
    let mut out = serde_json::Map::new();
    match inter {
        Ok(id) => {
            let (g, ids) = export(&p1, &[a, b, id]);
            out.insert("gi".into(), json!({"g": g, "a": ids[0], "b": ids[1], "r": [ids[2]],
                                           "fmt": quiver_core::format::format_type_by_id(&p1, id)}));
        }
        Err(e) => errs.push(format!("inter: {e}")),
    }
    match compl {
        Ok(id) => {
            let (g, ids) = export(&p2, &[a, b, id]);
            out.insert("gc".into(), json!({"g": g, "a": ids[0], "b": ids[1], "r": [ids[2]],
                                           "fmt": quiver_core::format::format_type_by_id(&p2, id)}));
        }
        Err(e) => errs.push(format!("compl: {e}")),
    }
    rec["ops"] = J::Object(out);
    rec["err"] = json!(errs);
    rec
}

fn replay_case(ctx: &Ctx, j: &J) -> J {
    let mut program = Program::new();
    let map = match build(&j["g"], &mut program) {
        Ok(m) => m,
        Err(e) => return json!({"id": j["id"], "error": e}),
    };
    let roots: Vec<usize> = j["roots"].as_array().map(|a| a.iter().map(idx).collect()).unwrap_or_default();
    let reg: Vec<usize> = roots.iter().map(|r| map[*r]).collect();
    let mut compat = Vec::new();
    let mut overlap = Vec::new();
    for &a in &reg {
        let mut rc = Vec::new();
        let mut ro = Vec::new();
        for &b in &reg {
            let c = guarded(|| Ok(is_compatible(a, b, &program)));
            let o = guarded(|| Ok(types_overlap(a, b, &program)));
            match (c, o) {
                (Ok(c), Ok(o)) => {
                    rc.push(json!(c));
                    ro.push(json!(o));
                }
                (c, o) => {
                    return json!({"id": j["id"], "error": format!("relation panicked: {:?} {:?}", c.err(), o.err())});
                }
            }
        }
        compat.push(J::Array(rc));
        overlap.push(J::Array(ro));
    }
    // narrowing: flattened to one entry per (pair, operation)
    let mut narrows = Vec::new();
    if let Some(ps) = j["narrow"].as_array() {
        for p in ps {
            let (i, k) = (idx(&p[0]), idx(&p[1]));
            let n = narrow(ctx, &program, reg[i - 1], reg[k - 1]);
            for (op, key) in [("inter", "gi"), ("compl", "gc")] {
                if let Some(o) = n["ops"].get(key) {
                    let (inter, compl) = if op == "inter" {
                        (o["r"].clone(), json!([]))
                    } else {
                        (json!([]), o["r"].clone())
                    };
                    narrows.push(json!({"i": i, "j": k, "op": op, "g": o["g"], "a": o["a"], "b": o["b"],
                                        "inter": inter, "compl": compl, "fmt": o["fmt"]}));
                }
            }
            if n["err"].as_array().map(|e| !e.is_empty()).unwrap_or(false) {
                narrows.push(json!({"i": i, "j": k, "op": "error", "g": {"types": [{"k":"int"}], "tuples": []},
                                    "a": 1, "b": 1, "inter": [], "compl": [], "fmt": n["err"]}));
            }
        }
    }
    json!({"id": j["id"], "roots": j["roots"], "map": reg,
           "fmt": reg.iter().map(|r| quiver_core::format::format_type_by_id(&program, *r)).collect::<Vec<_>>(),
           "compat": compat, "overlap": overlap, "narrow": narrows})
}

fn probe(ctx: &Ctx, j: &J) -> J {
    let mut program = Program::new();
    let mut aliases: Vec<(String, usize)> = Vec::new();
    if let Some(m) = j["aliases"].as_object() {
        for (name, spec) in m {
            match build(&spec["g"], &mut program) {
                Ok(map) => aliases.push((name.clone(), map[idx(&spec["root"])])),
                Err(e) => return json!({"id": j["id"], "error": e}),
            }
        }
    }
    let al: Vec<(&str, usize)> = aliases.iter().map(|(n, i)| (n.as_str(), *i)).collect();
    let param = j["param"]
        .as_str()
        .and_then(|p| aliases.iter().find(|(n, _)| n == p).map(|(_, i)| *i))
        .unwrap_or(0);
    let src = j["src"].as_str().unwrap_or("");
    match guarded(|| compile(ctx, &mut program, &al, param, src)) {
        Ok((res, b)) => {
            let mut tys = serde_json::Map::new();
            for (n, bind) in &b {
                let id = match bind {
                    Binding::TypeAlias(d) => d.type_id,
                    Binding::Variable { ty, .. } => *ty,
                };
                tys.insert(n.clone(), json!(quiver_core::format::format_type_by_id(&program, id)));
            }
            json!({"id": j["id"], "result": quiver_core::format::format_type_by_id(&program, res), "bindings": tys})
        }
        Err(e) => json!({"id": j["id"], "error": e}),
    }
}

fn main() {
    let mode = std::env::args().nth(1).unwrap_or_default();
    let ctx = Ctx {
        builtins: BuiltinRegistry::<E>::with_modules(&quiver_core::builtins::core_modules()),
        resolver: PackageResolver::memory(HashMap::new()),
    };
    // the compiler may panic on a malformed registry: keep the default hook quiet, it is data
    std::panic::set_hook(Box::new(|_| {}));
    let stdin = std::io::stdin();
    let stdout = std::io::stdout();
    let mut out = std::io::BufWriter::new(stdout.lock());
    for line in stdin.lock().lines() {
        let line = line.unwrap();
        if line.trim().is_empty() {
            continue;
        }
        let j: J = serde_json::from_str(&line).expect("json");
        let rec = if mode == "probe" { probe(&ctx, &j) } else { replay_case(&ctx, &j) };
        writeln!(out, "{}", rec).unwrap();
        // flush per record: a stack overflow of the code under test cannot be caught, the driver
        // must see exactly which case killed the process
        out.flush().unwrap();
    }
}
