//! typerun: run programs and export, with the outcome, the RESULT TYPE the compiler inferred (C01).
//! stdin: ndjson {"id":..,"src":".." | "lines":[..], "modules":{..}}
//! stdout: {"id","outcome":O,"type":{"root":T,"types":[[id,T]..],"tuples":[[id,{"name":..,"fs":[[label,type id]..]}]..]}}
//! with T in a uniform encoding: {"k":"int"|"bin"|"ref"}, {"k":"tuple","id":n}, {"k":"union","ms":[ids]},
//! {"k":"partial","name":[..0/1 names],"fs":[[label,id]..]}, {"k":"fn","p":id,"r":id,"rc":id}, {"k":"cycle","d":n},
//! {"k":"process","s":[id?],"r":[id?]}, {"k":"resource","name":..}, {"k":"var","name":..}
use qharness::sim::{Sim, SimConfig};
use quiver_core::program::Program;
use quiver_core::types::Type;
use serde_json::{Value as J, json};
use std::collections::BTreeSet;
use std::io::{BufRead, Write};

fn enc(t: &Type) -> J {
    match t {
        Type::Integer => json!({"k": "int"}),
        Type::Binary => json!({"k": "bin"}),
        Type::Reference => json!({"k": "ref"}),
        Type::Tuple(id) => json!({"k": "tuple", "id": id}),
        Type::Partial { name, fields } => json!({"k": "partial",
            "name": name.iter().cloned().collect::<Vec<_>>(),
            "fs": fields.iter().map(|(l, t)| json!([l, t])).collect::<Vec<_>>()}),
        Type::Callable { parameter, result, receive } => json!({"k": "fn", "p": parameter, "r": result, "rc": receive}),
        Type::Cycle(d) => json!({"k": "cycle", "d": d}),
        Type::Union(ms) => json!({"k": "union", "ms": ms}),
        Type::Process { send, receive } => json!({"k": "process",
            "s": send.iter().cloned().collect::<Vec<_>>(), "r": receive.iter().cloned().collect::<Vec<_>>()}),
        Type::Resource(n) => json!({"k": "resource", "name": n}),
        Type::Variable(n) => json!({"k": "var", "name": n}),
    }
}

fn children(t: &Type) -> (Vec<usize>, Vec<usize>) {
    // (type ids, tuple ids)
    match t {
        Type::Tuple(id) => (vec![], vec![*id]),
        Type::Partial { fields, .. } => (fields.iter().map(|(_, t)| *t).collect(), vec![]),
        Type::Callable { parameter, result, receive } => (vec![*parameter, *result, *receive], vec![]),
        Type::Union(ms) => (ms.clone(), vec![]),
        Type::Process { send, receive } => (send.iter().chain(receive.iter()).cloned().collect(), vec![]),
        _ => (vec![], vec![]),
    }
}

fn export(program: &Program, root: &Type) -> J {
    let mut types: BTreeSet<usize> = BTreeSet::new();
    let mut tuples: BTreeSet<usize> = BTreeSet::new();
    let mut work_t: Vec<usize> = vec![];
    let mut work_u: Vec<usize> = vec![];
    let (t0, u0) = children(root);
    work_t.extend(t0);
    work_u.extend(u0);
    while !work_t.is_empty() || !work_u.is_empty() {
        if let Some(t) = work_t.pop() {
            if types.insert(t) {
                if let Some(ty) = program.get_types().get(t) {
                    let (a, b) = children(ty);
                    work_t.extend(a);
                    work_u.extend(b);
                }
            }
        }
        if let Some(u) = work_u.pop() {
            if tuples.insert(u) {
                if let Some(info) = program.get_tuples().get(u) {
                    work_t.extend(info.fields.iter().map(|(_, t)| *t));
                }
            }
        }
    }
    json!({"root": enc(root),
        "types": types.iter().filter_map(|t| program.get_types().get(*t).map(|ty| json!([t, enc(ty)]))).collect::<Vec<_>>(),
        "tuples": tuples.iter().filter_map(|u| program.get_tuples().get(*u).map(|i| json!([u, {
            "name": i.name.iter().cloned().collect::<Vec<_>>(),
            "fs": i.fields.iter().map(|(l, t)| json!([l.clone().unwrap_or_default(), t])).collect::<Vec<_>>()}]))).collect::<Vec<_>>()})
}

/// Value projection with the tuple's name and labels kept apart (TLC cannot parse strings).
fn rich(program: &Program, heap: &[Vec<u8>], v: &quiver_core::value::Value) -> J {
    use quiver_core::value::{Binary, Value};
    match v {
        Value::Integer(_) => json!({"k": "int"}),
        Value::Binary(Binary::Heap(i)) => json!({"k": "bin", "n": heap.get(*i).map(|b| b.len()).unwrap_or(0)}),
        Value::Binary(_) => json!({"k": "bin", "n": 0}),
        Value::Reference(_) => json!({"k": "ref"}),
        Value::Tuple(id, fs) => {
            let info = program.get_tuples().get(*id);
            json!({"k": "tup",
                "tn": info.and_then(|i| i.name.clone()).into_iter().collect::<Vec<_>>(),
                "ls": info.map(|i| i.fields.iter().map(|(l, _)| l.clone().unwrap_or_default()).collect::<Vec<_>>()).unwrap_or_default(),
                "fs": fs.iter().map(|f| rich(program, heap, f)).collect::<Vec<_>>()})
        }
        Value::Function(_, _) | Value::Builtin(_) => json!({"k": "fn"}),
        Value::Process(_, _) => json!({"k": "pid"}),
        Value::Resource(_, _) => json!({"k": "res"}),
    }
}

fn main() {
    std::panic::set_hook(Box::new(|_| {}));
    let stdin = std::io::stdin();
    let stdout = std::io::stdout();
    let mut out = stdout.lock();
    for line in stdin.lock().lines() {
        let line = line.unwrap();
        if line.trim().is_empty() {
            continue;
        }
        let j: J = serde_json::from_str(&line).expect("json");
        let mut modules = std::collections::HashMap::new();
        if let Some(J::Object(m)) = j.get("modules") {
            for (name, src) in m {
                modules.insert(name.split('/').map(|s| s.to_string()).collect::<Vec<_>>(), src.as_str().unwrap_or("").to_string());
            }
        }
        let mut sim = Sim::new(SimConfig { workers: 2, record: false, modules, ..Default::default() });
        let lines: Vec<String> = match j.get("lines") {
            Some(J::Array(a)) => a.iter().map(|x| x.as_str().unwrap_or("").to_string()).collect(),
            _ => vec![j["src"].as_str().unwrap_or("").to_string()],
        };
        let mut outcome = json!({"t": "none"});
        for src in &lines {
            if sim.submit(src) {
                sim.run_default(1000, 2_000_000);
            }
            outcome = sim.outcome_json();
            if !sim.crashes.is_empty() {
                break;
            }
        }
        let ty = export(sim.repl.verif_program(), sim.repl.get_last_result_type());
        let richv = sim
            .raw_outcome
            .as_ref()
            .map(|(v, heap)| rich(sim.env.get_program(), heap, v));
        writeln!(out, "{}", json!({"id": j["id"], "outcome": outcome, "rich": richv.into_iter().collect::<Vec<_>>(), "type": ty, "crashes": sim.crashes,
            "type_text": quiver_core::format::format_type(sim.repl.verif_program(), sim.repl.get_last_result_type())})).unwrap();
    }
}
